package main

import (
	"sort"
	"fmt"
	"go/ast"
	"go/token"
	"go/types"
	"strings"
)

// flowPaths fetches the paths of a function, recording undecided when over the bound.
func (r *Run) flowPaths(rule string, fn *Func) (*Flow, []Path, bool) {
	fl := r.P.FlowOf(fn)
	paths, ok := fl.Paths()
	if !ok {
		r.Undecided(rule, "paths:"+fn.Key, fn.Decl.Pos(), "more than %d paths", PathLimit)
		return fl, nil, false
	}
	r.Funcs[fn.Key] = true
	r.Paths += len(paths)
	return fl, paths, true
}

func (r *Run) litPaths(rule string, fl *ast.FuncLit) (*Flow, []Path, bool) {
	f := r.P.FlowOfLit(fl)
	if f == nil {
		return nil, nil, false
	}
	paths, ok := f.Paths()
	if !ok {
		r.Undecided(rule, "paths:"+f.Name, fl.Pos(), "more than %d paths", PathLimit)
		return f, nil, false
	}
	r.Paths += len(paths)
	return f, paths, true
}

func (r *Run) fnByKey(rule, key string) *Func {
	f := r.P.Funcs[key]
	if f == nil || f.Decl.Body == nil {
		r.Unresolved(rule, key)
		return nil
	}
	r.Funcs[key] = true
	return f
}

// propagation: every returning path that calls callee must propagate a failing
// result: return it directly, return the bound variable, or test it and return
// a non-nil error on the non-nil branch. Returns (#paths with the call, first problem).
func propagation(fl *Flow, paths []Path, callee string) (n int, bad string, pos token.Pos) {
	for i := range paths {
		p := &paths[i]
		for ci, e := range p.Ev {
			if !IsCall(e, callee) || e.Deferred {
				continue
			}
			n++
			use := UseOfResult(fl, p, ci)
			problem := ""
			switch {
			case use.Kind == "direct-return":
			case use.Verdict == "returned", use.Verdict == "nil", use.Verdict == "true":
			case use.Verdict == "nonnil" && LostAfterNonNil(fl, p, use) != "" && !strings.Contains(LostAfterNonNil(fl, p, use), "falls off"):
				problem = LostAfterNonNil(fl, p, use)
			case use.Verdict == "nonnil":
				if p.Exit == ExitReturn {
					// the return that ends the path must not be a nil error
					ri := FirstAfter(p, use.At, func(x Event) bool { return x.Kind == EvReturn && !x.Deferred })
					if ri < 0 {
						problem = "failing branch falls off the end of the function"
					} else if isNil, has := ReturnsNilLast(fl.Info, p.Ev[ri]); has && isNil {
						problem = "failing branch returns nil"
					} else if FirstAfter(p, use.At, func(x Event) bool { return IsCall(x, callee) && !x.Deferred }) >= 0 {
						problem = "failing branch continues with another call to " + ShortFn(callee)
					}
				}
			default:
				if p.Exit == ExitReturn {
					problem = fmt.Sprintf("result of %s is %s/%s on a returning path", ShortFn(callee), use.Kind, use.Verdict)
				}
			}
			if problem != "" && bad == "" {
				bad, pos = problem, e.Pos
			}
		}
	}
	return
}

// groupResultReturned: in States.<fn>, each Group.Go literal propagates the
// result of runChecksOnce and the function's own result is Group.Wait's.
func groupResultReturned(r *Run, rule, fnName string, minGo int) {
	fn := r.fnByKey(rule, smKey(fnName))
	if fn == nil {
		return
	}
	fl, paths, ok := r.flowPaths(rule, fn)
	if !ok {
		return
	}
	lits := map[*ast.FuncLit]bool{}
	for i := range paths {
		for _, e := range paths[i].Ev {
			if IsCall(e, keyGroupGo) {
				if l := LitArg(e.Call); l != nil {
					lits[l] = true
				}
			}
		}
	}
	if len(lits) < minGo {
		r.Fail(rule, fnName+":launches", fn.Decl.Pos(), "%d Group.Go literals found, expected %d", len(lits), minGo)
	}
	for l := range lits {
		lf, lp, ok := r.litPaths(rule, l)
		if !ok {
			continue
		}
		n, bad, pos := propagation(lf, lp, smKey("runChecksOnce"))
		if n == 0 {
			r.Fail(rule, fnName+":go-literal-runs-checks", l.Pos(), "launched literal does not call runChecksOnce")
			continue
		}
		if pos == 0 {
			pos = l.Pos()
		}
		arg := ""
		for _, e := range lp[0].Ev {
			if IsCall(e, smKey("runChecksOnce")) && len(e.Call.Args) == 2 {
				arg = ExprStr(e.Call.Args[1])
			}
		}
		r.Check(rule, fnName+":go("+arg+"):propagates", pos, bad == "", "%s", orOK(bad, "runChecksOnce error is the literal's result on every path"))
	}
	n, bad, pos := propagation(fl, paths, keyGroupWait)
	if n == 0 {
		r.Fail(rule, fnName+":wait-result", fn.Decl.Pos(), "no Group.Wait call")
		return
	}
	r.Check(rule, fnName+":wait-result", pos, bad == "", "%s", orOK(bad, "Group.Wait error decides the result on every path"))
}

// ruleExecSeq: sequential, in declared order, stop at first error.
func ruleExecSeq(r *Run, rule string) {
	fn := r.fnByKey(rule, smKey("execSeq"))
	if fn == nil {
		return
	}
	fl, paths, ok := r.flowPaths(rule, fn)
	if !ok {
		return
	}
	info := fl.Info
	run := smKey("runAction")
	// locate the runAction call sites syntactically
	var sites []*ast.CallExpr
	var parents = map[ast.Node]ast.Node{}
	var stack []ast.Node
	ast.Inspect(fn.Decl.Body, func(n ast.Node) bool {
		if n == nil {
			stack = stack[:len(stack)-1]
			return true
		}
		if len(stack) > 0 {
			parents[n] = stack[len(stack)-1]
		}
		stack = append(stack, n)
		if c, ok := n.(*ast.CallExpr); ok {
			if f, ok := calleeFunc(info, c); ok && FuncKey(f) == run {
				sites = append(sites, c)
			}
		}
		return true
	})
	if len(sites) == 0 {
		r.Unresolved(rule, "execSeq calls runAction")
		return
	}
	for _, c := range sites {
		r.Evals++
		var loop ast.Stmt
		sync := true
		for n := parents[c]; n != nil; n = parents[n] {
			switch x := n.(type) {
			case *ast.FuncLit, *ast.GoStmt, *ast.DeferStmt:
				sync = false
			case *ast.RangeStmt:
				if loop == nil {
					loop = x
				}
			case *ast.ForStmt:
				if loop == nil {
					loop = x
				}
			}
		}
		r.Check(rule, "execSeq:runAction-synchronous", c.Pos(), sync, "runAction must be called directly by execSeq (not in a literal, go or defer) so that actions run one at a time")
		okOrder, why := false, "runAction is not inside a loop over seq.Actions"
		if loop != nil && len(c.Args) >= 2 {
			okOrder, why = inOrderLoopOver(info, loop, c.Args[1], "workflow.Sequence", "Actions")
		}
		r.Check(rule, "execSeq:declared-order", c.Pos(), okOrder, "%s", orOK(why, "ascending loop over seq.Actions, element passed to runAction"))
	}
	n, bad, pos := propagation(fl, paths, run)
	if n == 0 {
		r.Fail(rule, "execSeq:stops-at-first-error", fn.Decl.Pos(), "no path calls runAction")
	} else {
		r.Check(rule, "execSeq:stops-at-first-error", pos, bad == "", "%s", orOK(bad, "every path returns the error of a failing runAction before any further runAction"))
	}
	// Failed only on the error branch, Completed only after the loop finished without error
	badStatus := ""
	var bpos token.Pos
	for i := range paths {
		p := &paths[i]
		if p.Exit != ExitReturn {
			continue
		}
		failedVerdict := false
		calls := 0
		for ci, e := range p.Ev {
			if IsCall(e, run) && !e.Deferred {
				calls++
				if UseOfResult(fl, p, ci).Verdict == "nonnil" {
					failedVerdict = true
				}
			}
		}
		last := ""
		var lpos token.Pos
		for _, e := range p.Ev {
			if v, ok := StatusAssign(info, e, "workflow.Sequence"); ok && !e.Deferred {
				last, lpos = v, e.Pos
			}
		}
		if failedVerdict && last != "workflow.Failed" && badStatus == "" {
			badStatus, bpos = "a path on which runAction failed leaves the sequence status "+orOK(last, "unassigned"), lpos
		}
		if !failedVerdict && last == "workflow.Failed" && badStatus == "" {
			badStatus, bpos = "sequence marked Failed on a path where no runAction failed", lpos
		}
		if last == "workflow.Completed" && failedVerdict && badStatus == "" {
			badStatus, bpos = "sequence marked Completed although runAction failed", lpos
		}
	}
	if bpos == 0 {
		bpos = fn.Decl.Pos()
	}
	r.Check(rule, "execSeq:status-follows-verdict", bpos, badStatus == "", "%s", orOK(badStatus, "Failed exactly on the failing branch; Completed only when no runAction failed"))
}

// inOrderLoopOver recognises `for _, v := range X.<field>` (elem == v) and the
// canonical ascending index loop (elem == X.<field>[i] or a variable assigned from it).
func inOrderLoopOver(info *types.Info, loop ast.Stmt, elem ast.Expr, owner, field string) (bool, string) {
	switch l := loop.(type) {
	case *ast.RangeStmt:
		if _, ok := FieldPath(info, l.X, owner, field); !ok {
			return false, "the loop ranges over " + ExprStr(l.X) + ", not over the " + field + " of a " + owner
		}
		if l.Value == nil || !SameObj(info, l.Value, elem) {
			if resolvesToIndexOf(info, l.Body, elem, l.X, l.Key) {
				return true, ""
			}
			return false, "the element handed on is not the range value"
		}
		return true, ""
	case *ast.ForStmt:
		// for i := 0; i < len(X.f); i++
		init, ok := l.Init.(*ast.AssignStmt)
		if !ok || len(init.Lhs) != 1 || len(init.Rhs) != 1 {
			return false, "loop is not the canonical ascending index loop"
		}
		if v, isC := ConstInt(info, init.Rhs[0]); !isC || v != 0 {
			return false, "index does not start at 0"
		}
		iv := init.Lhs[0]
		cond, ok := l.Cond.(*ast.BinaryExpr)
		if !ok || cond.Op != token.LSS || !SameObj(info, cond.X, iv) {
			return false, "loop condition is not i < len(...)"
		}
		lc, ok := ast.Unparen(cond.Y).(*ast.CallExpr)
		if !ok || len(lc.Args) != 1 {
			return false, "loop bound is not len(...)"
		}
		if _, ok := FieldPath(info, lc.Args[0], owner, field); !ok {
			return false, "loop bound is not len of the " + field + " of a " + owner
		}
		post, ok := l.Post.(*ast.IncDecStmt)
		if !ok || post.Tok != token.INC || !SameObj(info, post.X, iv) {
			return false, "loop post statement is not i++"
		}
		if resolvesToIndexOf(info, l.Body, elem, lc.Args[0], iv) {
			return true, ""
		}
		return false, "the element handed on is not " + ExprStr(lc.Args[0]) + "[i]"
	}
	return false, "unrecognised loop form"
}

// resolvesToIndexOf: elem is `coll[idx]` or a variable whose only definition in body is `:= coll[idx]`.
func resolvesToIndexOf(info *types.Info, body *ast.BlockStmt, elem, coll, idx ast.Expr) bool {
	if idx == nil {
		return false
	}
	isIdx := func(e ast.Expr) bool {
		ie, ok := ast.Unparen(e).(*ast.IndexExpr)
		return ok && ExprStr(ie.X) == ExprStr(coll) && SameObj(info, ie.Index, idx)
	}
	if isIdx(elem) {
		return true
	}
	obj := ObjOf(info, elem)
	if obj == nil {
		return false
	}
	defs, good := 0, 0
	ast.Inspect(body, func(n ast.Node) bool {
		if as, ok := n.(*ast.AssignStmt); ok {
			for i, l := range as.Lhs {
				if ObjOf(info, l) == obj {
					defs++
					if len(as.Rhs) == len(as.Lhs) && isIdx(as.Rhs[i]) {
						good++
					}
				}
			}
		}
		return true
	})
	return defs == 1 && good == 1
}

// ruleBlocksHead: only blocks[0] is executed; blocks are popped from the front.
func ruleBlocksHead(r *Run, rule string) {
	pkg := r.P.Pkgs[pkgSM]
	if pkg == nil {
		r.Unresolved(rule, pkgSM)
		return
	}
	info := pkg.TypesInfo
	isBlocks := func(e ast.Expr) bool {
		_, ok := FieldPath(info, e, "sm.Data", "blocks")
		return ok
	}
	type agg struct {
		ok  bool
		msg string
		pos token.Pos
	}
	res := map[string]*agg{}
	order := []string{}
	note := func(key string, pos token.Pos, ok bool, msg string) {
		a := res[key]
		if a == nil {
			a = &agg{ok: true, pos: pos}
			res[key] = a
			order = append(order, key)
		}
		if !ok && a.ok {
			a.ok, a.msg, a.pos = false, msg, pos
		}
	}
	popNames := map[string]bool{"BlockEnd": true, "ExecuteBlock": true}
	fillNames := map[string]bool{"Start": true, "Recovery": true}
	// a helper called only from the allowed states (directly or through such helpers) is covered by the table
	covered := func(names map[string]bool) map[string]bool {
		out := map[string]bool{}
		for _, fn := range r.P.sortedFuncs() {
			if fn.Pkg != pkg {
				continue
			}
			if r.P.CallGraph().OnlyCalledFrom(fn.Key, func(k string) bool {
				return strings.HasPrefix(k, pkgSM+".States.") && names[strings.TrimPrefix(k, pkgSM+".States.")]
			}) {
				out[fn.Obj.Name()] = true
			}
		}
		for n := range names {
			out[n] = true
		}
		return out
	}
	popAllowed := covered(popNames)
	fillAllowed := covered(fillNames)
	for _, fn := range r.P.sortedFuncs() {
		if fn.Pkg != pkg || fn.Decl.Body == nil {
			continue
		}
		name := fn.Obj.Name()
		ast.Inspect(fn.Decl.Body, func(n ast.Node) bool {
			switch x := n.(type) {
			case *ast.IndexExpr:
				if isBlocks(x.X) {
					r.Evals++
					v, isC := ConstInt(info, x.Index)
					note("blocks-index:"+name, x.Pos(), isC && v == 0, "Data.blocks indexed with "+ExprStr(x.Index)+"; only the head block (index 0) may be executed")
				}
			case *ast.SliceExpr:
				if isBlocks(x.X) {
					r.Evals++
					lo, isC := int64(0), false
					if x.Low != nil {
						lo, isC = ConstInt(info, x.Low)
					}
					ok := isC && lo == 1 && x.High == nil && !x.Slice3
					note("blocks-pop:"+name, x.Pos(), ok && popAllowed[name], "Data.blocks re-sliced as "+ExprStr(x)+" in "+name+"; allowed: [1:] in BlockEnd/ExecuteBlock")
				}
			case *ast.AssignStmt:
				for i, l := range x.Lhs {
					if !isBlocks(l) || len(x.Rhs) != len(x.Lhs) {
						continue
					}
					r.Evals++
					for _, alt := range r.P.Alternatives(info, x.Rhs[i], 0) {
						rhs := ast.Unparen(alt)
						switch v := rhs.(type) {
						case *ast.SliceExpr:
							if rhs == ast.Unparen(x.Rhs[i]) {
								break // written in place: judged by the SliceExpr case
							}
							lo, isC := int64(0), false
							if v.Low != nil {
								lo, isC = ConstInt(info, v.Low)
							}
							ok := isBlocks(v.X) && isC && lo == 1 && v.High == nil && !v.Slice3
							note("blocks-pop:"+name, x.Pos(), ok && popAllowed[name], "Data.blocks assigned "+ExprStr(v)+" in "+name+"; allowed: [1:] in BlockEnd/ExecuteBlock")
						case *ast.CallExpr:
							isAppend := false
							if id, ok := v.Fun.(*ast.Ident); ok && id.Name == "append" && len(v.Args) >= 1 && isBlocks(v.Args[0]) {
								isAppend = true
							}
							note("blocks-fill:"+name, x.Pos(), isAppend && fillAllowed[name], "Data.blocks assigned "+ExprStr(rhs)+" in "+name+"; appends are allowed only while Start/Recovery build the list")
						default:
							isNil := ValueKey(info, rhs) == "nil"
							note("blocks-pop:"+name, x.Pos(), isNil && popAllowed[name], "Data.blocks assigned "+ExprStr(rhs)+" in "+name)
						}
					}
				}
			}
			return true
		})
	}
	for _, k := range order {
		a := res[k]
		r.Check(rule, k, a.pos, a.ok, "%s", orOK(a.msg, "only index 0 / [1:] / nil / in-order append"))
	}
	// Start and Recovery fill the list in plan order
	for _, name := range []string{"Start", "Recovery"} {
		fn := r.fnByKey(rule, smKey(name))
		if fn == nil {
			continue
		}
		found := false
		ast.Inspect(fn.Decl.Body, func(n ast.Node) bool {
			rs, ok := n.(*ast.RangeStmt)
			if !ok {
				return true
			}
			ast.Inspect(rs.Body, func(m ast.Node) bool {
				c, ok := m.(*ast.CallExpr)
				if !ok {
					return true
				}
				if id, ok := c.Fun.(*ast.Ident); !ok || id.Name != "append" || len(c.Args) != 2 || !isBlocks(c.Args[0]) {
					return true
				}
				found = true
				_, okX := FieldPath(info, rs.X, "workflow.Plan", "Blocks")
				elemOK := false
				if cl, ok := ast.Unparen(c.Args[1]).(*ast.CompositeLit); ok {
					for _, el := range cl.Elts {
						if kv, ok := el.(*ast.KeyValueExpr); ok {
							if id, ok := kv.Key.(*ast.Ident); ok && id.Name == "block" && rs.Value != nil && SameObj(info, kv.Value, rs.Value) {
								elemOK = true
							}
						}
					}
				}
				r.Check(rule, "blocks-order:"+name, c.Pos(), okX && elemOK, "Data.blocks must be filled by ranging over Plan.Blocks in order with the range value as the block (ranges over %s)", ExprStr(rs.X))
				return true
			})
			return true
		})
		if !found {
			r.Fail(rule, "blocks-order:"+name, fn.Decl.Pos(), "%s does not build Data.blocks by appending in a range over Plan.Blocks", name)
		}
	}
}

// ruleJoinJ1: every path from a Group.Go call to a return passes the same group's Wait.
func ruleJoinJ1(r *Run, rule string, fnKeys ...string) {
	for _, k := range fnKeys {
		fn := r.fnByKey(rule, k)
		if fn == nil {
			continue
		}
		fl, paths, ok := r.flowPaths(rule, fn)
		if !ok {
			continue
		}
		short := ShortFn(k)
		launches := 0
		bad := map[string]token.Pos{}
		for i := range paths {
			p := &paths[i]
			if p.Exit != ExitReturn {
				continue
			}
			for gi, e := range p.Ev {
				if !IsCall(e, keyGroupGo) {
					continue
				}
				launches++
				recv := recvObj(fl.Info, e.Call)
				wi := FirstAfter(p, gi, func(x Event) bool {
					return IsCall(x, keyGroupWait) && recvObj(fl.Info, x.Call) == recv
				})
				if wi < 0 {
					ri := len(p.Ev) - 1
					for ; ri >= 0 && (p.Ev[ri].Kind != EvReturn || p.Ev[ri].Deferred); ri-- {
					}
					pos := e.Pos
					if ri >= 0 {
						pos = p.Ev[ri].Pos
					}
					bad["join:"+short+":exit:"+ExitGuardKey(fl, p)] = pos
				}
			}
		}
		if launches == 0 {
			r.Unresolved(rule, k+" launches Group.Go")
			continue
		}
		if len(bad) == 0 {
			r.Pass(rule, "join:"+short, fn.Decl.Pos(), "every path from Group.Go to a return of %s passes Group.Wait (%d paths)", short, len(paths))
		}
		for key, pos := range bad {
			r.Fail(rule, key, pos, "a return of %s is reachable after Group.Go without passing the group's Wait: work launched here may still be running when the caller proceeds", short)
		}
	}
}

func recvObj(info *types.Info, call *ast.CallExpr) types.Object {
	if sel, ok := ast.Unparen(call.Fun).(*ast.SelectorExpr); ok {
		x := ast.Unparen(sel.X)
		for { // (&v).M(), (*p).M(): the variable is the receiver
			if u, ok := x.(*ast.UnaryExpr); ok && u.Op == token.AND {
				x = ast.Unparen(u.X)
				continue
			}
			if st, ok := x.(*ast.StarExpr); ok {
				x = ast.Unparen(st.X)
				continue
			}
			break
		}
		return ObjOf(info, x)
	}
	return nil
}

// rulePluginConfinement: the only route to Plugin.Execute.
func rulePluginConfinement(r *Run, rule string) {
	act := pkgActions + "."
	r.CallersWithin(rule, keyPluginExe, act+"run")
	r.CallersWithin(rule, act+"run", act+"Runner.exec")
	r.CallersWithin(rule, act+"Runner.exec", act+"Runner.Execute")
	r.CallersWithin(rule, act+"Runner.Execute", act+"Runner.GetPlugin")
	r.CallersWithin(rule, act+"Runner.GetPlugin", act+"Runner.Start")
	r.CallersWithin(rule, act+"Runner.Start", smKey("runAction"))
	r.CallersWithin(rule, smKey("runAction"), smKey("execSeq"), smKey("runActionsParallel"))
	r.CallersWithin(rule, smKey("execSeq"), smKey("ExecuteSequences"), smKey("fixBlock"))
	r.CallersWithin(rule, smKey("runActionsParallel"), smKey("runChecksOnce"))
	r.CallersWithin(rule, smKey("runChecksOnce"),
		smKey("BlockDeferredChecks"), smKey("BlockPostChecks"), smKey("PlanDeferredChecks"), smKey("PlanPostChecks"),
		smKey("runBypasses"), smKey("runContChecks"), smKey("runPreChecks"))
	// execSeq may be launched from ExecuteSequences only inside its Group.Go literal,
	// and runAction inside execSeq only synchronously (R3).
	_ = strings.Join
}

// ruleRunActionGuards: runAction returns nil for a Completed action and the recorded
// error for a Failed one without starting the action machine; otherwise it runs the
// machine and returns its error.
func ruleRunActionGuards(r *Run, rule string) {
	fn := r.fnByKey(rule, smKey("runAction"))
	if fn == nil {
		return
	}
	fl, paths, ok := r.flowPaths(rule, fn)
	if !ok {
		return
	}
	info := fl.Info
	bad := map[string]string{}
	seen := map[string]bool{}
	var pos = map[string]token.Pos{}
	for i := range paths {
		p := &paths[i]
		if p.Exit != ExitReturn {
			continue
		}
		// skip the test-hook path
		hook := false
		for _, e := range p.Ev {
			if Establishes(info, e, fieldMatcher(info, "", "testActionRunner"), "nil", false) {
				hook = true
			}
		}
		if hook {
			continue
		}
		status := ""
		ran := false
		for _, e := range p.Ev {
			if e.Kind == EvBranch && e.Taken {
				if st, ok := statusTest(info, e, "workflow.Action"); ok {
					status = st
				}
			}
			if IsCall(e, keyRun) {
				ran = true
			}
		}
		var ret *Event
		for j := range p.Ev {
			if p.Ev[j].Kind == EvReturn && !p.Ev[j].Deferred {
				ret = &p.Ev[j]
			}
		}
		if ret == nil {
			continue
		}
		isNil, _ := ReturnsNilLast(info, *ret)
		switch status {
		case "workflow.Completed":
			seen["completed"] = true
			pos["completed"] = ret.Pos
			if (ran || !isNil) && bad["completed"] == "" {
				bad["completed"] = "a Completed action must be skipped with a nil error (machine started=" + boolStr(ran) + ", returns nil=" + boolStr(isNil) + ")"
			}
		case "workflow.Failed":
			seen["failed"] = true
			pos["failed"] = ret.Pos
			if (ran || isNil) && bad["failed"] == "" {
				bad["failed"] = "a Failed action must not be run again and must report its failure (machine started=" + boolStr(ran) + ", returns nil=" + boolStr(isNil) + "): otherwise a recovered sequence steps over its failed action"
			}
		default:
			seen["run"] = true
			if !ran && bad["run"] == "" {
				bad["run"] = "a path returns without running the action machine although the action is neither Completed nor Failed (guard " + ExitGuardKey(fl, p) + ")"
				pos["run"] = ret.Pos
			}
		}
	}
	for _, k := range []string{"completed", "failed"} {
		if !seen[k] {
			r.Fail(rule, "runAction:guard-"+k, fn.Decl.Pos(), "runAction has no branch for an action that is already %s: it would be handed to the action machine again", k)
			continue
		}
		r.Check(rule, "runAction:guard-"+k, pos[k], bad[k] == "", "%s", orOK(bad[k], "terminal action is not re-run and reports its stored verdict"))
	}
	n, b, ps := propagation(fl, paths, keyRun)
	if ps == 0 {
		ps = fn.Decl.Pos()
	}
	r.Check(rule, "runAction:machine-error-returned", ps, n > 0 && b == "" && bad["run"] == "", "%s", orOK(orOK(b, bad["run"]), "the action machine's error is runAction's result"))
}

// statusTest: a branch event that establishes `X.State.Status == <const>` for X of type owner
// (switch case or == comparison, taken).
func statusTest(info *types.Info, e Event, owner string) (string, bool) {
	// what the event establishes in the direction taken (also as one conjunct of a larger condition)
	if e.Kind != EvBranch || e.Cond == nil {
		return "", false
	}
	flipped := e
	flipped.Taken = true // callers test e.Taken themselves: report what the condition being true establishes
	for _, l := range EventLiterals(info, flipped) {
		if !l.Eq {
			continue
		}
		if _, m := FieldPath(info, l.X, owner, "State", "Status"); m {
			return l.Val, true
		}
	}
	return "", false
}

// ruleFailureChain: an action's failure reaches execSeq: exec's outcome mapping,
// Execute stores Retry's result, End promotes it to req.Err, runAction returns it.
func ruleFailureChain(r *Run, rule string) {
	fn := r.fnByKey(rule, actKey("Runner.exec"))
	if fn == nil {
		return
	}
	fl, paths, ok := r.flowPaths(rule, fn)
	if !ok {
		return
	}
	sub := NewRun(r.P, r.Prop, r.Tier)
	sub.ruleKinds = r.ruleKinds
	ruleExecOutcome(sub, rule, fn, fl, paths, nil)
	ruleErrPermanent(sub, rule)
	ruleRunnerGraph(sub, rule)
	for _, o := range sub.Obls {
		if strings.HasSuffix(o.Key, "outcome-mapping") || strings.HasSuffix(o.Key, "wraps-with-%w") || strings.HasSuffix(o.Key, "retry-op-is-exec") || o.Status != StOK {
			r.Obls = append(r.Obls, o)
		}
	}
	r.Paths += sub.Paths
	// Runner.End promotes Data.err
	end := r.fnByKey(rule, actKey("Runner.End"))
	if end != nil {
		ef, ep, ok := r.flowPaths(rule, end)
		if ok {
			bad := ""
			for i := range ep {
				p := &ep[i]
				if p.Exit != ExitReturn {
					continue
				}
				promoted := false
				for _, e := range p.Ev {
					if e.Kind == EvAssign && len(e.Lhs) == len(e.Rhs) {
						for k, l := range e.Lhs {
							if reqField(ef.Info, l, "Err") {
								_, m := FieldPath(ef.Info, e.Rhs[k], "actions.Data", "err")
								promoted = m
							}
						}
					}
				}
				if !promoted && bad == "" {
					bad = "a path of Runner.End returns without promoting Data.err to req.Err: a failed action would look successful to execSeq"
				}
			}
			r.Check(rule, "Runner.End:promotes-error", end.Decl.Pos(), bad == "", "%s", orOK(bad, "req.Err = req.Data.err on every path"))
		}
	}
	ruleRunActionGuards(r, rule)
}

// ruleExamineBypasses: examineBypasses answers true only for status Completed.
func ruleExamineBypasses(r *Run, rule string) {
	fn := r.Fn(rule, pkgSM, "finalStates", "examineBypasses")
	if fn == nil {
		return
	}
	fl, paths, ok := r.flowPaths(rule, fn)
	if !ok {
		return
	}
	bad := ""
	nTrue := 0
	var bpos = fn.Decl.Pos()
	for i := range paths {
		p := &paths[i]
		if p.Exit != ExitReturn {
			continue
		}
		completed := false
		for _, e := range p.Ev {
			if e.Kind == EvBranch && e.Taken {
				if st, ok := statusTest(fl.Info, e, "workflow.Checks"); ok && st == "workflow.Completed" {
					completed = true
				}
			}
		}
		for _, e := range p.Ev {
			if e.Kind == EvReturn && len(e.Rhs) == 1 {
				v := ValueKey(fl.Info, e.Rhs[0])
				if v == "true" {
					nTrue++
				}
				if v != "false" && !completed && bad == "" {
					bad, bpos = "examineBypasses answers "+orOK(v, ExprStr(e.Rhs[0]))+" on a path that did not establish BypassChecks.State.Status == Completed: a failed or unfinished bypass group would complete the plan", e.Pos
				}
			}
		}
	}
	if nTrue == 0 && bad == "" {
		bad = "examineBypasses never answers true"
	}
	r.Check(rule, "examineBypasses:true-only-if-completed", bpos, bad == "", "%s", orOK(bad, "true exactly on the Completed branch"))

	// the converse, by assume-and-refute: for a present group whose status is Completed no path may answer
	// anything but true (a bypassed plan must be recorded as Completed, not examined further)
	var param types.Object
	if ps := fn.Decl.Type.Params; ps != nil && len(ps.List) == 1 && len(ps.List[0].Names) == 1 {
		param = fl.Info.ObjectOf(ps.List[0].Names[0])
	}
	if param == nil {
		r.Unresolved(rule, "examineBypasses has one parameter")
		return
	}
	isP := func(e ast.Expr) bool { return ObjOf(fl.Info, ast.Unparen(e)) == param }
	atom := func(e ast.Expr) (string, bool, bool) {
		if x, op, ok := IsNilCompare(fl.Info, e); ok && isP(x) {
			return "nil", op == token.NEQ, true
		}
		for _, st := range []string{"workflow.Completed", "workflow.Failed", "workflow.NotStarted", "workflow.Running", "workflow.Stopped"} {
			if neg, ok := EqAtom(fl.Info, e, func(x ast.Expr) bool {
				b, m := FieldPath(fl.Info, x, "workflow.Checks", "State", "Status")
				return m && isP(b)
			}, st); ok {
				return "st:" + st, neg, true
			}
		}
		return "", false, false
	}
	asg := map[string]bool{"nil": false, "st:workflow.Completed": true, "st:workflow.Failed": false, "st:workflow.NotStarted": false, "st:workflow.Running": false, "st:workflow.Stopped": false}
	bad2 := ""
	var bpos2 = fn.Decl.Pos()
	for i := range paths {
		p := &paths[i]
		if p.Exit != ExitReturn || PathRefuted(fl, p, -1, asg, atom) {
			continue
		}
		for _, e := range p.Ev {
			if e.Kind == EvReturn && e.Depth == 0 && len(e.Rhs) == 1 && ValueKey(fl.Info, e.Rhs[0]) != "true" && bad2 == "" {
				if v, known := (&refuter{fl: fl, asg: asg, atom: atom, bound: map[types.Object][2]bool{}}).eval(e.Rhs[0]); known && v {
					continue
				}
				bad2, bpos2 = "for a present bypass group whose status is Completed a path answers "+ExprStr(e.Rhs[0])+": a plan whose bypass checks all succeeded is examined as if it had run, and ends Failed on its untouched blocks", e.Pos
			}
		}
	}
	r.Check(rule, "examineBypasses:completed-group-answers-true", bpos2, bad2 == "", "%s", orOK(bad2, "present ∧ Completed ⇒ true on every path"))
}

// ruleYieldDiscipline: in fn (and its literals) the bool result of every call of a
// function-typed parameter named like a yield/visitor, and of every callee in
// `visitors`, is tested and the false branch returns at once — or the call is
// directly followed by a return. One obligation per call site.
func ruleYieldDiscipline(r *Run, rule string, fn *Func, visitors map[string]bool) int {
	n := 0
	label := strings.TrimPrefix(fn.Key, relPkg(fn.Pkg.PkgPath)+".")
	check := func(fl *Flow, paths []Path) {
		type site struct {
			pos  token.Pos
			name string
			bad  string
		}
		sites := map[token.Pos]*site{}
		for i := range paths {
			p := &paths[i]
			for ci, e := range p.Ev {
				if e.Kind != EvCall || e.Deferred {
					continue
				}
				isVisitor := false
				name := ""
				if v, ok := e.Callee.(*types.Var); ok {
					if sig, ok := v.Type().Underlying().(*types.Signature); ok && sig.Results().Len() == 1 {
						if b, ok := sig.Results().At(0).Type().Underlying().(*types.Basic); ok && b.Kind() == types.Bool && !v.IsField() {
							isVisitor, name = true, v.Name()
						}
					}
				}
				if k := CalleeKey(e); visitors[k] {
					isVisitor, name = true, ShortFn(k)
				}
				if !isVisitor {
					continue
				}
				s := sites[e.Pos]
				if s == nil {
					s = &site{pos: e.Pos, name: name}
					sites[e.Pos] = s
				}
				// Could the visitor have answered false on this path? Assume it did and see whether the
				// path (up to the next evaluation of the same call) is still possible.
				next := FirstAfter(p, ci, func(x Event) bool { return x.Kind == EvCall && x.Call == e.Call && x.Depth == e.Depth })
				theCall := e.Call
				atom := func(x ast.Expr) (string, bool, bool) {
					if ast.Unparen(x) == ast.Expr(theCall) {
						return "answer", false, true
					}
					return "", false, false
				}
				problem := ""
				if !PathRefutedRange(fl, p, ci+1, next, map[string]bool{"answer": false}, atom) {
					isVisit := func(x Event) bool {
						if x.Kind != EvCall || x.Depth != e.Depth {
							return false
						}
						if v, ok := x.Callee.(*types.Var); ok && v.Name() == name {
							return true
						}
						return visitors[CalleeKey(x)]
					}
					ri := FirstAfter(p, ci, func(x Event) bool { return x.Kind == EvReturn && !x.Deferred })
					vi := FirstAfter(p, ci, isVisit)
					li := FirstAfter(p, ci, func(x Event) bool { return (x.Kind == EvRange || x.Kind == EvSelect) && x.Depth == e.Depth })
					continues := (vi >= 0 && (ri < 0 || vi < ri)) || (li >= 0 && (ri < 0 || li < ri)) || (ri < 0 && p.Exit == ExitTruncated && (vi >= 0 || li >= 0))
					if continues {
						problem = "after " + name + " answered false the function can keep going (next visit/loop before any return; exit guard " + ExitGuardKey(fl, p) + "): iteration must stop immediately when the consumer stops (a range-over-func iterator otherwise panics with 'continued iteration after function for loop body returned false')"
					}
					if ri >= 0 && len(p.Ev[ri].Rhs) == 1 && ValueKey(fl.Info, p.Ev[ri].Rhs[0]) == "true" && (vi < 0 || ri < vi) {
						problem = "the false answer of " + name + " is turned into true: the caller continues the walk"
					}
				}
				if problem != "" && s.bad == "" {
					s.bad = problem
				}
			}
		}
		var ps []token.Pos
		for p := range sites {
			ps = append(ps, p)
		}
		sort.Slice(ps, func(i, j int) bool { return ps[i] < ps[j] })
		for i, p := range ps {
			s := sites[p]
			n++
			r.Check(rule, "visit-result:"+label+":"+s.name+"#"+itoa(i+1), s.pos, s.bad == "", "%s", orOK(s.bad, "result of "+s.name+" tested; false ⇒ immediate return"))
		}
	}
	fl := r.P.FlowOf(fn)
	r.Funcs[fn.Key] = true
	if paths, ok := fl.Paths(); ok {
		r.Paths += len(paths)
		check(fl, append(append([]Path{}, paths...), fl.Truncated()...))
	}
	var all []*ast.FuncLit
	ast.Inspect(fn.Decl.Body, func(nn ast.Node) bool {
		if l, ok := nn.(*ast.FuncLit); ok {
			all = append(all, l)
		}
		return true
	})
	for _, l := range all {
		if lf, lp, ok := r.litPaths(rule, l); ok {
			check(lf, append(append([]Path{}, lp...), lf.Truncated()...))
		}
	}
	return n
}

// ruleOptionWiring: each public option forwards to the internal option of the same
// name, and each internal option assigns the field it is named after.
func ruleOptionWiring(r *Run, rule string) {
	for _, o := range []struct{ pub, internal, field string }{
		{"WithMaxLastUpdate", "WithMaxLastUpdate", "maxLastUpdate"},
		{"WithMaxSubmit", "WithMaxSubmit", "maxSubmit"},
		{"WithNoRecovery", "WithNoRecovery", "recovery"},
	} {
		pf := r.fnByKey(rule, "coercion."+o.pub)
		if pf != nil {
			var callees []string
			ast.Inspect(pf.Decl.Body, func(n ast.Node) bool {
				if c, ok := n.(*ast.CallExpr); ok {
					if f, ok := calleeFunc(pf.Pkg.TypesInfo, c); ok && strings.HasPrefix(FuncKey(f), pkgExec+".With") {
						callees = append(callees, strings.TrimPrefix(FuncKey(f), pkgExec+"."))
					}
				}
				return true
			})
			r.Check(rule, "option:coercion."+o.pub, pf.Decl.Pos(), len(callees) == 1 && callees[0] == o.internal, "coercion.%s must forward to execute.%s (forwards to %v): otherwise the configured value silently configures something else", o.pub, o.internal, callees)
		}
		inf := r.fnByKey(rule, execKey(o.internal))
		if inf != nil {
			var fields []string
			info := inf.Pkg.TypesInfo
			var param types.Object
			if ps := inf.Decl.Type.Params.List; len(ps) > 0 && len(ps[0].Names) > 0 {
				param = info.ObjectOf(ps[0].Names[0])
			}
			okVal := true
			ast.Inspect(inf.Decl.Body, func(n ast.Node) bool {
				if as, ok := n.(*ast.AssignStmt); ok && len(as.Lhs) == 1 && len(as.Rhs) == 1 {
					if sel, ok := ast.Unparen(as.Lhs[0]).(*ast.SelectorExpr); ok {
						if tv, ok := info.Types[sel.X]; ok && ShortType(tv.Type) == "execute.Plans" {
							fields = append(fields, sel.Sel.Name)
							if param != nil && ObjOf(info, as.Rhs[0]) != param {
								okVal = false
							}
							if param == nil && ValueKey(info, as.Rhs[0]) != "false" {
								okVal = false
							}
						}
					}
				}
				return true
			})
			r.Check(rule, "option:execute."+o.internal, inf.Decl.Pos(), len(fields) == 1 && fields[0] == o.field && okVal, "execute.%s must set Plans.%s from its argument (sets %v)", o.internal, o.field, fields)
		}
	}
}

// ruleSkipRecoveredChecks: a check group is skipped only when it is absent.
func ruleSkipRecoveredChecks(r *Run, rule string) {
	fn := r.fnByKey(rule, pkgSM+".skipRecoveredChecks")
	if fn == nil {
		return
	}
	fl, paths, ok := r.flowPaths(rule, fn)
	if !ok {
		return
	}
	bad := ""
	nTrue := 0
	for i := range paths {
		p := &paths[i]
		isNil := false
		for _, e := range p.Ev {
			if e.Kind == EvBranch && e.Cond != nil {
				if _, op, ok := IsNilCompare(fl.Info, e.Cond); ok && (op == token.EQL) == e.Taken {
					isNil = true
				}
			}
			if e.Kind == EvReturn && len(e.Rhs) == 1 {
				v := ValueKey(fl.Info, e.Rhs[0])
				if v == "true" {
					nTrue++
				}
				if v != "false" && !isNil && bad == "" {
					bad = "skipRecoveredChecks answers " + orOK(v, ExprStr(e.Rhs[0])) + " for a group that is present: PlanBypassChecks/PlanPreChecks would skip the gate of a recovered plan although the group (or the continuous checks run with it) has not passed"
				}
			}
		}
	}
	if nTrue == 0 && bad == "" {
		bad = "skipRecoveredChecks never answers true (a nil group must be skipped)"
	}
	r.Check(rule, "skipRecoveredChecks:true-only-for-absent-group", fn.Decl.Pos(), bad == "", "%s", orOK(bad, "true exactly for a nil group"))
}

// ruleRecoveryNoEarlyWrite: Recovery never persists a plan it is about to hand to Start or End;
// only the resumed (Running) path writes it.
func ruleRecoveryNoEarlyWrite(r *Run, rule string) {
	fn := r.fnByKey(rule, smKey("Recovery"))
	if fn == nil {
		return
	}
	fl, paths, ok := r.flowPaths(rule, fn)
	if !ok {
		return
	}
	bad := ""
	n := 0
	for i := range paths {
		p := &paths[i]
		if p.Exit != ExitReturn {
			continue
		}
		next := nextOf(fl, p)
		if next != "Start" {
			continue
		}
		n++
		for _, e := range p.Ev {
			name, ok := isUpdaterCall(e)
			if !ok && e.Kind == EvCall && !e.Inlined {
				// a helper that (transitively) writes the plan
				if k := CalleeKey(e); strings.HasPrefix(k, pkgSM+".") && storeUpdatesReached(r, k)["UpdatePlan"] {
					name, ok = ShortFn(k)+" (which writes the plan)", true
				}
			}
			if ok && bad == "" {
				bad = "Recovery calls " + name + " on the path that restarts the plan from Start: a plan fixPlan reset to NotStarted would be stored as NotStarted, and after a second crash it is never found again (start-up only searches for Running plans)"
			}
		}
	}
	if n == 0 {
		r.Unresolved(rule, "Recovery path to Start")
		return
	}
	r.Check(rule, "Recovery:reset-plan-not-persisted-as-NotStarted", fn.Decl.Pos(), bad == "", "%s", orOK(bad, "no store write before Start rewrites the plan as Running"))
}

// ruleFixBlockLaunch: fixBlock re-launches only sequences that are still Running after fixSeq.
func ruleFixBlockLaunch(r *Run, rule string) {
	fn := r.fnByKey(rule, smKey("fixBlock"))
	if fn == nil {
		return
	}
	fl, paths, ok := r.flowPaths(rule, fn)
	if !ok {
		return
	}
	bad := ""
	n := 0
	var bpos token.Pos = fn.Decl.Pos()
	for i := range paths {
		p := &paths[i]
		for gi, e := range p.Ev {
			if !IsCall(e, keyGroupGo) {
				continue
			}
			if l := LitArg(e.Call); l == nil || !callsFunc(fl.Info, l, smKey("execSeq")) {
				continue
			}
			n++
			// the most recent status test of the sequence in this iteration
			st := ""
			for j := gi - 1; j >= 0; j-- {
				b := p.Ev[j]
				if b.Kind == EvRange {
					break
				}
				if b.Kind == EvBranch && b.Taken {
					if v, ok := statusTest(fl.Info, b, "workflow.Sequence"); ok {
						st = v
						break
					}
				}
			}
			if st != "workflow.Running" && bad == "" {
				bad, bpos = "fixBlock launches a sequence whose status after fixSeq is "+orOK(st, "untested")+": only sequences that were in flight at the crash (Running) may be resumed here — this launch is outside the block's Concurrency limiter, so anything else would exceed it", e.Pos
			}
		}
	}
	if n == 0 {
		r.Unresolved(rule, "fixBlock launches execSeq")
		return
	}
	r.Check(rule, "fixBlock:resumes-only-running-sequences", bpos, bad == "", "%s", orOK(bad, "launch under case Running only"))
}

// storeUpdatesReached: the storage Update* methods a function of the sm package reaches (through sm functions).
func storeUpdatesReached(r *Run, key string) map[string]bool {
	out := map[string]bool{}
	for k := range r.P.CallGraph().Reach([]string{key}, func(e CallEdge) bool {
		return strings.HasPrefix(e.Callee, pkgSM+".") || strings.HasPrefix(e.Callee, "workflow/storage.")
	}) {
		if strings.HasPrefix(k, "workflow/storage.") {
			out[k[strings.LastIndex(k, ".")+1:]] = true
		}
	}
	return out
}

// ruleParallelVerdict (round-4 seeds C06-7, C01-7): the verdict of a check group is the join of the verdicts of ALL its actions.
// runActionsParallel answers with the result of Group.Wait — which collects the error of every launched function — and every
// launched function answers with the result of its runAction. A verdict assembled on the side (a map keyed by action name, the
// first result on a channel) can lose a failure, or answer before the slower actions have finished.
func ruleParallelVerdict(r *Run, rule string) {
	fn := r.fnByKey(rule, smKey("runActionsParallel"))
	if fn == nil {
		return
	}
	fl, paths, ok := r.flowPaths(rule, fn)
	if !ok {
		return
	}
	var lits []*ast.FuncLit
	seen := map[*ast.FuncLit]bool{}
	for i := range paths {
		for _, e := range paths[i].Ev {
			if IsCall(e, keyGroupGo) {
				if l := LitArg(e.Call); l != nil && !seen[l] {
					seen[l] = true
					lits = append(lits, l)
				}
			}
		}
	}
	if len(lits) == 0 {
		r.Unresolved(rule, "runActionsParallel launches its actions with Group.Go")
		return
	}
	for _, l := range lits {
		lf, lp, ok := r.litPaths(rule, l)
		if !ok {
			continue
		}
		n, bad, pos := propagation(lf, lp, smKey("runAction"))
		if n == 0 {
			bad = "the launched function does not call runAction"
		}
		if pos == 0 {
			pos = l.Pos()
		}
		r.Check(rule, "runActionsParallel:go-literal-propagates", pos, bad == "", "%s", orOK(bad, "the launched function answers with runAction's result"))
	}
	n, bad, pos := propagation(fl, paths, keyGroupWait)
	if n == 0 {
		r.Fail(rule, "runActionsParallel:wait-result", fn.Decl.Pos(), "no Group.Wait call")
		return
	}
	r.Check(rule, "runActionsParallel:wait-result", pos, bad == "", "%s", orOK(bad, "Group.Wait's error decides the group's verdict on every path"))
}
